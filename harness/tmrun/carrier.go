package tmrun

// Carrier suite: the real gRPC interceptors, gin middleware and dubbo filter of
// pkg/integration are driven with generated xids and key spellings; the callee
// records the xid it finds in its context, then opens a Required scope under the
// scripted coordinator: it must be a participant of the carried transaction and
// never send a commit/rollback for it.

import (
	"context"
	"encoding/hex"
	"net/http"
	"net/http/httptest"
	"reflect"
	"sync"
	"time"

	"dubbo.apache.org/dubbo-go/v3/common"
	"dubbo.apache.org/dubbo-go/v3/protocol"
	"dubbo.apache.org/dubbo-go/v3/protocol/invocation"
	"github.com/agiledragon/gomonkey/v2"
	"github.com/gin-gonic/gin"
	"google.golang.org/grpc"
	"google.golang.org/grpc/metadata"

	"seata.apache.org/seata-go/pkg/constant"
	sdubbo "seata.apache.org/seata-go/pkg/integration/dubbo"
	sgin "seata.apache.org/seata-go/pkg/integration/gin"
	sgrpc "seata.apache.org/seata-go/pkg/integration/grpc"
	"seata.apache.org/seata-go/pkg/protocol/message"
	"seata.apache.org/seata-go/pkg/remoting/getty"
	"seata.apache.org/seata-go/pkg/tm"

	"verifh/hutil"
)

type CCase struct {
	ID        int    `json:"id"`
	Kind      string `json:"kind"`      // grpc | gin | dubbo
	Roundtrip bool   `json:"roundtrip"` // sender half of the integration produced the headers
	Key       string `json:"key"`       // hex; the single key the headers are built with otherwise
	Xid       string `json:"xid"`       // hex
	// observed
	Ran       bool     `json:"ran"`    // the callee handler ran
	Seata     bool     `json:"seata"`  // its context is a seata context
	Got       string   `json:"got"`    // hex of tm.GetXID in the callee
	Inner     string   `json:"inner"`  // hex of the xid inside the callee's Required scope
	Role      string   `json:"role"`   // role inside that scope
	Reqs      []string `json:"reqs"`   // requests the coordinator received while the callee ran: kind:xid-or-name
	Status    int      `json:"status"` // gin: http status
	Ret       string   `json:"ret"`    // class of the callee's WithGlobalTx
	Panicked  bool     `json:"panicked"`
}

var (
	ccMu  sync.Mutex
	ccCur *CCase
)

func carrierStub(_ *getty.GettyRemotingClient, msg interface{}) (interface{}, error) {
	ccMu.Lock()
	defer ccMu.Unlock()
	ok := message.AbstractTransactionResponse{AbstractResultMessage: message.AbstractResultMessage{ResultCode: message.ResultCodeSuccess}}
	switch m := msg.(type) {
	case message.GlobalBeginRequest:
		ccCur.Reqs = append(ccCur.Reqs, "begin:"+m.TransactionName)
		return message.GlobalBeginResponse{AbstractTransactionResponse: ok, Xid: "new-xid-of-callee"}, nil
	case message.GlobalCommitRequest:
		ccCur.Reqs = append(ccCur.Reqs, "commit:"+hex.EncodeToString([]byte(m.Xid)))
		return message.GlobalCommitResponse{AbstractGlobalEndResponse: message.AbstractGlobalEndResponse{AbstractTransactionResponse: ok, GlobalStatus: message.GlobalStatusCommitted}}, nil
	case message.GlobalRollbackRequest:
		ccCur.Reqs = append(ccCur.Reqs, "rollback:"+hex.EncodeToString([]byte(m.Xid)))
		return message.GlobalRollbackResponse{AbstractGlobalEndResponse: message.AbstractGlobalEndResponse{AbstractTransactionResponse: ok, GlobalStatus: message.GlobalStatusRollbacked}}, nil
	}
	ccCur.Reqs = append(ccCur.Reqs, "other")
	return nil, nil
}

// what every callee does with the context the integration hands it
func callee(c *CCase, ctx context.Context, fail bool) {
	c.Ran = true
	c.Seata = tm.IsSeataContext(ctx)
	c.Got = hex.EncodeToString([]byte(tm.GetXID(ctx)))
	err := tm.WithGlobalTx(ctx, &tm.GtxConfig{Name: "callee", Propagation: tm.Required}, func(ctx context.Context) error {
		c.Inner = hex.EncodeToString([]byte(tm.GetXID(ctx)))
		c.Role = roleStr(*tm.GetTxRole(ctx))
		if fail {
			return context.Canceled
		}
		return nil
	})
	c.Ret = "nil"
	if err != nil {
		c.Ret = "err"
	}
}

type capInvoker struct {
	f func(ctx context.Context, inv protocol.Invocation)
}

func (i *capInvoker) GetURL() *common.URL { return nil }
func (i *capInvoker) IsAvailable() bool   { return true }
func (i *capInvoker) Destroy()            {}
func (i *capInvoker) Invoke(ctx context.Context, inv protocol.Invocation) protocol.Result {
	i.f(ctx, inv)
	return &protocol.RPCResult{}
}

func runCarrier(c *CCase) {
	defer func() {
		if p := recover(); p != nil {
			c.Panicked = true
		}
	}()
	key, _ := hex.DecodeString(c.Key)
	xidb, _ := hex.DecodeString(c.Xid)
	xid := string(xidb)
	fail := c.ID%3 == 0
	clientCtx := tm.InitSeataContext(context.Background())
	tm.SetXID(clientCtx, xid)
	switch c.Kind {
	case "grpc":
		var md metadata.MD
		if c.Roundtrip {
			_ = sgrpc.ClientTransactionInterceptor(clientCtx, "/svc/m", nil, nil, nil,
				func(ctx context.Context, method string, req, reply interface{}, cc *grpc.ClientConn, opts ...grpc.CallOption) error {
					md, _ = metadata.FromOutgoingContext(ctx)
					return nil
				})
		} else {
			md = metadata.Pairs(string(key), xid)
		}
		in := metadata.NewIncomingContext(context.Background(), md.Copy())
		_, _ = sgrpc.ServerTransactionInterceptor(in, nil, &grpc.UnaryServerInfo{FullMethod: "/svc/m"},
			func(ctx context.Context, req interface{}) (interface{}, error) {
				callee(c, ctx, fail)
				return nil, nil
			})
	case "gin":
		gin.SetMode(gin.ReleaseMode)
		r := gin.New()
		r.Use(sgin.TransactionMiddleware())
		r.GET("/m", func(g *gin.Context) {
			callee(c, g.Request.Context(), fail)
			g.Status(http.StatusOK)
		})
		req := httptest.NewRequest(http.MethodGet, "/m", nil)
		if c.Roundtrip {
			req.Header.Set(constant.XidKey, tm.GetXID(clientCtx))
		} else {
			req.Header.Set(string(key), xid)
		}
		rec := httptest.NewRecorder()
		r.ServeHTTP(rec, req)
		c.Status = rec.Code
	case "dubbo":
		f := sdubbo.GetDubboTransactionFilter()
		att := map[string]interface{}{}
		if c.Roundtrip {
			inv := invocation.NewRPCInvocation("m", nil, map[string]interface{}{})
			f.Invoke(clientCtx, &capInvoker{f: func(ctx context.Context, inv protocol.Invocation) {
				for k, v := range inv.Attachments() {
					att[k] = v
				}
			}}, inv)
		} else {
			att[string(key)] = xid
		}
		inv2 := invocation.NewRPCInvocation("m", nil, att)
		f.Invoke(context.Background(), &capInvoker{f: func(ctx context.Context, inv protocol.Invocation) {
			callee(c, ctx, fail)
		}}, inv2)
	}
}

var xidKeys = []string{"TX_XID", "tx_xid", "SEATA_XID", "seata_xid"}

func mixCase(r *hutil.Rng, s string) string {
	b := []byte(s)
	for i := range b {
		if b[i] >= 'a' && b[i] <= 'z' && r.Chance(1, 2) {
			b[i] -= 32
		} else if b[i] >= 'A' && b[i] <= 'Z' && r.Chance(1, 2) {
			b[i] += 32
		}
	}
	return string(b)
}

func genXid(r *hutil.Rng) string {
	switch r.Intn(8) {
	case 0:
		return ""
	case 1, 2, 3:
		return "192.168.0." + string(rune('0'+r.Intn(10))) + ":8091:" + hexDigits(r, 6+r.Intn(14))
	case 4:
		b := make([]byte, 1+r.Intn(40))
		for i := range b {
			b[i] = byte(0x21 + r.Intn(0x5e))
		}
		return string(b)
	case 5:
		return "xid with spaces " + hexDigits(r, 4)
	case 6:
		return "事务-" + hexDigits(r, 8)
	}
	b := make([]byte, 200+r.Intn(400))
	for i := range b {
		b[i] = byte('a' + r.Intn(26))
	}
	return string(b)
}

func hexDigits(r *hutil.Rng, n int) string {
	b := make([]byte, n)
	for i := range b {
		b[i] = "0123456789"[r.Intn(10)]
	}
	return string(b)
}

// GenCarrier: round trips through both halves of each integration, every accepted
// spelling, random case mixes, and spellings that must NOT be accepted.
func GenCarrier(tier string, seed uint64) []*CCase {
	var cases []*CCase
	r := hutil.NewRng(seed ^ 0xca771e7)
	add := func(kind string, rt bool, key, xid string) {
		cases = append(cases, &CCase{ID: len(cases) + 1, Kind: kind, Roundtrip: rt,
			Key: hex.EncodeToString([]byte(key)), Xid: hex.EncodeToString([]byte(xid)), Reqs: []string{}})
	}
	n := 40
	if tier == "thorough" {
		n = 3000
	}
	for _, kind := range []string{"grpc", "gin", "dubbo"} {
		add(kind, true, "", "")
		for _, k := range xidKeys {
			add(kind, false, k, genXid(r))
			add(kind, false, k, "192.168.0.1:8091:2000042948")
		}
		for i := 0; i < n; i++ {
			add(kind, true, "", genXid(r))
			add(kind, false, mixCase(r, xidKeys[r.Intn(len(xidKeys))]), genXid(r))
			if i%4 == 0 {
				bad := []string{"TX-XID", "XID", "tx_xid2", "x-tx-xid", "TXXID", "Seata-Xid", "seata_xid_", "tx xid"}[r.Intn(8)]
				if kind == "grpc" && bad == "tx xid" {
					bad = "txxid" // metadata keys with a space are rejected by validation elsewhere; keep to token keys
				}
				add(kind, false, bad, genXid(r))
			}
		}
	}
	return cases
}

type COutput struct {
	Cases []*CCase `json:"cases"`
	Secs  float64  `json:"secs"`
}

func RunCarrier(args map[string]string) {
	tier := hutil.ArgStr(args, "tier", "quick")
	seed := hutil.ArgU64(args, "seed", 1)
	cases := GenCarrier(tier, seed)
	p := gomonkey.ApplyMethod(reflect.TypeOf(getty.GetGettyRemotingClient()), "SendSyncRequest", carrierStub)
	defer p.Reset()
	tm.InitTm(tm.TmConfig{CommitRetryCount: 1, RollbackRetryCount: 1, DefaultGlobalTransactionTimeout: 60 * time.Second})
	t0 := time.Now()
	for _, c := range cases {
		ccMu.Lock()
		ccCur = c
		ccMu.Unlock()
		runCarrier(c)
	}
	hutil.WriteJSON(args["out"], COutput{Cases: cases, Secs: time.Since(t0).Seconds()})
}
