package tmrun

import "verifh/hutil"

var Modes = []string{"Required", "RequiresNew", "NotSupported", "Supports", "Never", "Mandatory"}
var Outs = []string{"nil", "err", "panic"}
var Replies = []string{"o", "f", "e", "t", "n"}

var pvKinds = []string{"str", "err", "int", "struct", "ptr", "rt"}

// finish: panic values of every dynamic type are spread over the panicking callbacks; the stale
// xid a carrier call's pre-existing headers hold is one of this case's own namespace
func finish(cases []*Case) []*Case {
	for _, c := range cases {
		var walk func(s *Scope)
		walk = func(s *Scope) {
			if s.Out == "panic" && s.Pv == "" {
				s.Pv = pvKinds[(c.ID+s.ID)%len(pvKinds)]
			}
			for i := range s.Calls {
				for j := range s.Calls[i].Pre {
					for k, v := range s.Calls[i].Pre[j].Vals {
						if v == hx("STALE") {
							s.Calls[i].Pre[j].Vals[k] = hx(xidStr(c.ID, 77))
						}
					}
				}
			}
			for _, k := range s.Kids {
				walk(k)
			}
		}
		walk(c.Tree)
	}
	return cases
}

func leaf(m, out string) *Scope { return &Scope{M: m, ID: 1, Shared: true, Out: out} }

// second-phase scripts up to equivalence: a prefix of transport failures (e/t) of
// length <= maxPrefix, then a terminal reply (o, f, n) or failures for ever.
type spScript struct {
	seq  []string
	dflt string
}

func spScripts(maxPrefix int) []spScript {
	var out []spScript
	var prefixes [][]string
	prefixes = append(prefixes, []string{})
	last := [][]string{{}}
	for l := 1; l <= maxPrefix; l++ {
		var next [][]string
		for _, p := range last {
			for _, x := range []string{"e", "t"} {
				q := append(append([]string{}, p...), x)
				next = append(next, q)
			}
		}
		prefixes = append(prefixes, next...)
		last = next
	}
	for _, p := range prefixes {
		for _, term := range []string{"o", "f", "n"} {
			out = append(out, spScript{append(append([]string{}, p...), term), "o"})
		}
		out = append(out, spScript{p, "e"}, spScript{p, "t"})
	}
	return out
}

// GenC04: single scopes. Exhaustive over callback outcome x begin reply x second-phase
// script (up to the equivalence above) x retry group x cancellation point, plus the
// scopes that do not initiate (joined / no transaction / refused), plus a seeded
// stream of random scripts (mostly well-formed replies; and a hostile one).
func GenC04(tier string, seed uint64) []*Case {
	var cases []*Case
	add := func(c *Case) {
		c.ID = len(cases) + 1
		c.Suite = "c04"
		cases = append(cases, c)
	}
	groups := [][2]int{{0, 1}, {1, 2}, {2, 0}}
	maxPrefix := 2
	cancels := []int{-1, 0, 1, 2, 3}
	nrand := 120
	if tier == "thorough" {
		groups = [][2]int{{0, 1}, {1, 2}, {2, 0}, {0, 0}, {1, 1}, {2, 2}, {5, 3}, {3, 5}, {4, 1}, {1, 4}, {0, 5}, {7, 0}, {3, 3}, {8, 2}}
		maxPrefix = 5
		cancels = []int{-1, 0, 1, 2, 3, 4, 5, 6, 7}
		nrand = 12000
	}
	scripts := spScripts(maxPrefix)
	for _, g := range groups {
		// the initiator path: Required on a context without a transaction
		for _, out := range Outs {
			for _, sc := range scripts {
				for _, cn := range cancels {
					c := &Case{Gen: "enum.launcher", Tree: leaf("Required", out), Script: append([]string{"o"}, sc.seq...),
						Default: sc.dflt, Cancel: cn, Nc: g[0], Nr: g[1]}
					k := len(cases)
					c.Entry = Entry{Role: "UnKnow", Plain: k%4 == 0}
					c.InCb = cn == 1 && k%2 == 1
					add(c)
				}
			}
			// begin refused / lost
			for _, br := range []string{"f", "e", "t", "n"} {
				for _, cn := range []int{-1, 0} {
					add(&Case{Gen: "enum.beginfail", Tree: leaf("Required", out), Script: []string{br}, Default: "o",
						Cancel: cn, Nc: g[0], Nr: g[1], Entry: Entry{Role: "UnKnow"}})
				}
			}
		}
	}
	// a panic value of every dynamic type, for an initiator, a participant and a scope without transaction
	for _, pv := range pvKinds {
		for _, v := range []struct {
			m   string
			xid int
		}{{"Required", 0}, {"Required", 100}, {"NotSupported", 0}, {"RequiresNew", 100}} {
			t := leaf(v.m, "panic")
			t.Pv = pv
			add(&Case{Gen: "enum.panicvalues", Tree: t, Script: []string{}, Default: "o", Cancel: -1,
				Nc: groups[1][0], Nr: groups[1][1], Entry: Entry{Role: "UnKnow", Xid: v.xid}})
		}
	}
	// scopes that are not the initiator: every mode x transaction current or not x outcome;
	// the coordinator would answer anything (default o / e): nothing may be sent, except by
	// the modes that begin a transaction of their own
	g := groups[1]
	for _, m := range append(append([]string{}, Modes...), "Other") {
		for _, bound := range []bool{true, false} {
			for _, out := range Outs {
				for _, d := range []string{"o", "e"} {
					for _, cn := range []int{-1, 0} {
						e := Entry{Role: "UnKnow"}
						if bound {
							e.Xid = 100
						}
						add(&Case{Gen: "enum.modes", Tree: leaf(m, out), Script: []string{}, Default: d, Cancel: cn,
							Nc: g[0], Nr: g[1], Entry: e})
					}
				}
			}
		}
	}
	// entry contexts left in an arbitrary state (role/name set, with or without xid)
	for _, role := range []string{"Launcher", "Participant", "UnKnow"} {
		for _, x := range []int{0, 100} {
			for _, m := range Modes {
				for _, out := range []string{"nil", "err"} {
					add(&Case{Gen: "enum.entry", Tree: leaf(m, out), Script: []string{}, Default: "o", Cancel: -1,
						Nc: g[0], Nr: g[1], Entry: Entry{Xid: x, Role: role, Name: 7}})
				}
			}
		}
	}
	// the initiator's decision when its business itself opens scopes on the SAME context
	// (local nesting): every outer/inner mode pair, both outcomes, with and without an incoming
	// transaction; a few three-level chains; coordinator always ok, plus a faulty script
	nestedAdd := func(t *Scope, e Entry, script []string, d string) {
		t = cloneScope(t)
		n := 0
		number(t, &n)
		add(&Case{Gen: "enum.nested", Tree: t, Script: script, Default: d, Cancel: -1, Nc: g[0], Nr: g[1], Entry: e})
	}
	outs2 := []string{"nil", "err"}
	for _, mo := range Modes {
		for _, oo := range outs2 {
			for _, mi := range Modes {
				for _, oi := range outs2 {
					t := &Scope{M: mo, Out: oo, Shared: true, Kids: []*Scope{{M: mi, Out: oi, Shared: true}}}
					nestedAdd(t, Entry{Role: "UnKnow"}, []string{}, "o")
					if oi == "nil" {
						nestedAdd(t, Entry{Role: "UnKnow", Xid: 100}, []string{}, "o")
					}
				}
			}
			for _, mi := range []string{"Required", "NotSupported", "RequiresNew"} {
				t3 := &Scope{M: mo, Out: oo, Shared: true, Kids: []*Scope{
					{M: mi, Out: "nil", Shared: true, Kids: []*Scope{{M: "Required", Out: "nil", Shared: true}}},
					{M: "Supports", Out: "nil", Shared: true}}}
				nestedAdd(t3, Entry{Role: "UnKnow"}, []string{}, "o")
				nestedAdd(t3, Entry{Role: "UnKnow"}, []string{"o", "o", "e"}, "o")
			}
		}
	}
	// nested scopes under coordinator faults: a fault of every kind injected at every request
	// position of the run (begin / commit / rollback of the outer and of the inner scope), and
	// cancellation at every request index (i.e. before / inside the inner callback, during the
	// inner or the outer second phase); retry counts (2,2) so that resends are visible
	faultAdd := func(gen string, t *Scope, e Entry, script []string, d string, cancel int) {
		t = cloneScope(t)
		n := 0
		number(t, &n)
		add(&Case{Gen: gen, Tree: t, Script: script, Default: d, Cancel: cancel, Nc: 2, Nr: 2, Entry: e})
	}
	outers := []string{"Required"}
	maxPos := 5
	if tier == "thorough" {
		outers = Modes
		maxPos = 7
	}
	for _, mo := range outers {
		for _, mi := range Modes {
			for _, oo := range outs2 {
				for _, oi := range outs2 {
					for si, sh := range []bool{true, false} {
						if tier != "thorough" && si == 1 && oo != oi {
							continue
						}
						t := &Scope{M: mo, Out: oo, Shared: true, Kids: []*Scope{{M: mi, Out: oi, Shared: sh}}}
						for pos := 0; pos < maxPos; pos++ {
							for _, f := range []string{"f", "e", "t", "n"} {
								sc := []string{}
								for i := 0; i < pos; i++ {
									sc = append(sc, "o")
								}
								faultAdd("nested.fault", t, Entry{Role: "UnKnow"}, append(sc, f), "o", -1)
							}
						}
						for cn := 1; cn <= 4; cn++ {
							faultAdd("nested.cancel", t, Entry{Role: "UnKnow"}, []string{}, "o", cn)
						}
					}
				}
			}
		}
	}
	// seeded stream: random scripts; 3 in 4 "mostly valid" (well-formed replies dominate)
	r := hutil.NewRng(seed)
	nft := 60
	if tier == "thorough" {
		nft = 25000
	}
	for i := 0; i < nft; i++ {
		t := randScope(r, 2+r.Intn(3), 2, true)
		n := r.Intn(9)
		sc := make([]string, n)
		for j := range sc {
			if r.Chance(3, 5) {
				sc[j] = "o"
			} else {
				sc[j] = Replies[r.Intn(len(Replies))]
			}
		}
		d := "o"
		if r.Chance(1, 8) {
			d = Replies[r.Intn(len(Replies))]
		}
		cn := -1
		if r.Chance(1, 4) {
			cn = r.Intn(7)
		}
		e := Entry{Role: "UnKnow"}
		if r.Chance(1, 4) {
			e.Xid = 100
		}
		nc, nr := 2, 2
		if r.Chance(1, 3) {
			nc, nr = 1, 2
		}
		tt := cloneScope(t)
		k := 0
		number(tt, &k)
		add(&Case{Gen: "nested.random", Tree: tt, Script: sc, Default: d, Cancel: cn, Nc: nc, Nr: nr, Entry: e})
	}
	for i := 0; i < nrand; i++ {
		gi := groups[r.Intn(len(groups))]
		n := r.Intn(7)
		hostile := r.Chance(1, 4)
		sc := make([]string, n)
		for j := range sc {
			if hostile {
				sc[j] = Replies[r.Intn(len(Replies))]
			} else if r.Chance(3, 5) {
				sc[j] = "o"
			} else {
				sc[j] = []string{"e", "t", "o", "f", "n"}[r.Intn(5)]
			}
		}
		d := "o"
		if hostile {
			d = Replies[r.Intn(len(Replies))]
		}
		cn := -1
		if r.Chance(1, 3) {
			cn = r.Intn(6)
		}
		m := "Required"
		if r.Chance(1, 3) {
			m = Modes[r.Intn(len(Modes))]
		}
		e := Entry{Role: "UnKnow"}
		if r.Chance(1, 4) {
			e.Xid = 100
		}
		add(&Case{Gen: "random", Tree: leaf(m, Outs[r.Intn(3)]), Script: sc, Default: d, Cancel: cn,
			Nc: gi[0], Nr: gi[1], Entry: e})
	}
	return finish(cases)
}

// ---------------------------------------------------------------- C07: scope trees
func number(s *Scope, next *int) {
	*next++
	s.ID = *next
	for _, k := range s.Kids {
		number(k, next)
	}
}

func cloneScope(s *Scope) *Scope {
	c := *s
	c.Calls = nil
	for _, cl := range s.Calls {
		n := Call{Kind: cl.Kind}
		for _, h := range cl.Pre {
			n.Pre = append(n.Pre, HV{Key: h.Key, Shape: h.Shape, Vals: append([]string{}, h.Vals...)})
		}
		c.Calls = append(c.Calls, n)
	}
	c.Kids = nil
	for _, k := range s.Kids {
		c.Kids = append(c.Kids, cloneScope(k))
	}
	return &c
}

// all scopes of depth <= d with at most w children per node; outs = callback outcomes used
func allScopes(d, w int, outs []string, root bool) []*Scope {
	var kidsets [][]*Scope
	kidsets = append(kidsets, nil)
	if d > 1 {
		sub := allScopes(d-1, w, outs, false)
		for _, a := range sub {
			kidsets = append(kidsets, []*Scope{a})
		}
		if w >= 2 {
			for _, a := range sub {
				for _, b := range sub {
					kidsets = append(kidsets, []*Scope{a, b})
				}
			}
		}
	}
	var res []*Scope
	shareds := []bool{true, false}
	if root {
		shareds = []bool{true}
	}
	for _, m := range Modes {
		for _, o := range outs {
			for _, sh := range shareds {
				for _, ks := range kidsets {
					res = append(res, &Scope{M: m, Out: o, Shared: sh, Kids: ks})
				}
			}
		}
	}
	return res
}

func randScope(r *hutil.Rng, depth, width int, root bool) *Scope {
	s := &Scope{M: Modes[r.Intn(len(Modes))], Out: "nil", Shared: root || r.Chance(2, 3)}
	if r.Chance(1, 40) {
		s.M = "Other"
	}
	switch r.Intn(6) {
	case 0, 1:
		s.Out = "err"
	case 2:
		s.Out = "panic"
	}
	if r.Chance(1, 6) {
		pre := []HV{}
		if r.Chance(2, 3) {
			pre = append(pre, hv(xidKeys[r.Intn(len(xidKeys))], []string{"s", "l"}[r.Intn(2)], "STALE"))
		}
		s.Calls = append(s.Calls, Call{Kind: []string{"grpc", "dubbo"}[r.Intn(2)], Pre: pre})
	}
	if depth > 1 {
		n := r.Intn(width + 1)
		for i := 0; i < n; i++ {
			s.Kids = append(s.Kids, randScope(r, depth-1, width, false))
		}
	}
	return s
}

// GenC07: scope trees against a coordinator that always answers ok (the domain of the
// C07 theorems), exhaustively for small shapes and randomly up to depth 4; plus a
// smaller stream of trees under coordinator faults and cancellation (tie only).
func GenC07(tier string, seed uint64) []*Case {
	var cases []*Case
	add := func(gen string, t *Scope, e Entry) *Case {
		t = cloneScope(t)
		t.Shared = true
		n := 0
		number(t, &n)
		c := &Case{Gen: gen, Suite: "c07", Tree: t, Entry: e, Script: []string{}, Default: "o", Cancel: -1, Nc: 2, Nr: 2}
		c.ID = len(cases) + 1
		cases = append(cases, c)
		return c
	}
	entries := []Entry{{Role: "UnKnow"}, {Role: "UnKnow", Xid: 100}}
	outs2 := []string{"nil", "err"}
	// depth <= 2, one child: exhaustive over 6 modes x outcomes x shared/fresh x entry
	for _, t := range allScopes(2, 1, outs2, true) {
		for _, e := range entries {
			add("enum.d2w1", t, e)
		}
	}
	r := hutil.NewRng(seed ^ 0xc07)
	nrand, nfault := 1200, 60
	depthSpan := 3
	if tier == "thorough" {
		depthSpan = 4
	}
	if tier == "thorough" {
		for _, t := range allScopes(2, 2, outs2, true) {
			add("enum.d2w2", t, entries[0])
			add("enum.d2w2", t, entries[1])
		}
		for _, t := range allScopes(3, 1, outs2, true) {
			add("enum.d3w1", t, entries[0])
			add("enum.d3w1", t, entries[1])
		}
		nrand, nfault = 90000, 4000
	} else {
		// a seeded sample of the depth-2/width-2 and depth-3 chains
		d2 := allScopes(2, 2, outs2, true)
		d3 := allScopes(3, 1, outs2, true)
		for i := 0; i < 500; i++ {
			add("sample.d2w2", d2[r.Intn(len(d2))], entries[r.Intn(2)])
			add("sample.d3w1", d3[r.Intn(len(d3))], entries[r.Intn(2)])
		}
	}
	for i := 0; i < nrand; i++ {
		e := Entry{Role: "UnKnow"}
		if r.Chance(1, 4) {
			e.Xid = 100
		}
		if r.Chance(1, 10) {
			e.Role = []string{"Launcher", "Participant"}[r.Intn(2)]
			e.Name = 7
		}
		add("random", randScope(r, 2+r.Intn(depthSpan), 2+i%2*(depthSpan-3), true), e)
	}
	// carrier calls made from inside callbacks on the scope's own context (gRPC client interceptor,
	// dubbo filter as consumer), the outgoing metadata / invocation already holding a stale xid under
	// every accepted key: the callee must see exactly the caller's transaction (none in a scope
	// that runs without one) and the caller's context must be untouched
	pres := [][]HV{nil}
	for _, k := range xidKeys {
		pres = append(pres, []HV{hv(k, "s", "STALE")})
	}
	pres = append(pres, []HV{hv("SEATA_XID", "l", "STALE")}, []HV{hv("user", "s", "u1"), hv("tx_xid", "s", "STALE")})
	for _, kind := range []string{"grpc", "dubbo"} {
		for _, pre := range pres {
			for _, mi := range Modes {
				inner := &Scope{M: mi, Out: "nil", Shared: true, Calls: []Call{{Kind: kind, Pre: pre}}}
				add("enum.calls", &Scope{M: "Required", Out: "nil", Shared: true, Kids: []*Scope{inner}}, entries[0])
			}
			for _, mr := range []string{"Required", "NotSupported", "Supports", "Never"} {
				add("enum.calls", &Scope{M: mr, Out: "nil", Shared: true, Calls: []Call{{Kind: kind, Pre: pre}}}, entries[0])
			}
			add("enum.calls", &Scope{M: "Required", Out: "err", Shared: true, Calls: []Call{{Kind: kind, Pre: pre}},
				Kids: []*Scope{{M: "NotSupported", Out: "nil", Shared: true, Calls: []Call{{Kind: kind, Pre: pre}, {Kind: "grpc", Pre: pre}}}}}, entries[1])
		}
	}
	// trees under faults (transport errors cost 100-200 ms each: kept small)
	for i := 0; i < nfault; i++ {
		c := add("random.fault", randScope(r, 2+r.Intn(2), 2, true), entries[r.Intn(2)])
		n := r.Intn(6)
		for j := 0; j < n; j++ {
			if r.Chance(1, 2) {
				c.Script = append(c.Script, "o")
			} else {
				c.Script = append(c.Script, Replies[r.Intn(len(Replies))])
			}
		}
		if r.Chance(1, 4) {
			c.Cancel = r.Intn(5)
		}
		c.Nc, c.Nr = 2, 2
	}
	return finish(cases)
}
