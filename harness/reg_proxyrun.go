package main

import "verifh/proxyrun"

func init() { subcommands["proxyrun"] = proxyrun.Main }
