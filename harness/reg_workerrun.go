package main

import "verifh/workerrun"

func init() { subcommands["workerrun"] = workerrun.Run }
